"""C34 — property queries are sound (number rules, definite assignment,
duality by construction)."""
from selib.program import walk, show, short, strip_type
from selib.absint import Interp, TOP
from selib.numdom import NumDomain, AbsNum, all_points, NS
from selib.visitors import Visitors, MustAssign
from selib.build import AnalysisBroken

QUERY_VISITORS = {
    # visitor class: query name (for the truth table)
    "ZeroVisitor": "zero", "PositiveVisitor": "positive",
    "NegativeVisitor": "negative", "NonNegativeVisitor": "nonnegative",
    "NonPositiveVisitor": "nonpositive", "RealVisitor": "real",
    "IntegerVisitor": "integer", "ComplexVisitor": "complex",
    "RationalVisitor": "rational", "FiniteVisitor": "finite",
    "AlgebraicVisitor": "algebraic",
}
DERIVED = {"is_nonzero": "ZeroVisitor", "is_infinite": "FiniteVisitor",
           "is_transcendental": "AlgebraicVisitor"}


def truth(q, p):
    """mathematical truth of query q for abstract number p; None = not
    judged (convention-dependent or value not determined by the point)"""
    k, s = p.kind, p.sign()
    fin = p.is_finite()
    realk = p.is_real()
    cplx = k in ("Complex", "ComplexDouble")
    if k == "NaN":
        return None
    if q == "zero":
        return (realk and s == 0) if fin else False
    if q in ("positive", "negative", "nonnegative", "nonpositive"):
        if k == "Infty":
            return False if p.vc == "zoo" else None
        if cplx:
            return False
        return {"positive": s > 0, "negative": s < 0,
                "nonnegative": s >= 0, "nonpositive": s <= 0}[q]
    if q == "real":
        if k == "Infty":
            return False if p.vc == "zoo" else None
        return realk
    if q == "integer":
        if k in ("RealDouble", "ComplexDouble"):
            return None
        return k == "Integer"
    if q == "rational":
        if k in ("RealDouble", "ComplexDouble"):
            return None
        return k in ("Integer", "Rational")
    if q == "complex":
        return True if fin else None
    if q == "finite":
        return fin
    if q == "algebraic":
        if k in ("Integer", "Rational"):
            return True
        return None
    return None


class QDomain(NumDomain):
    def value(self, I, e, env):
        if e.get("k") == "ref" and e.get("d") == "enum":
            return ("enum", e["n"])
        return super().value(I, e, env)


def result_member(prog, V, vis):
    """member returned by <vis>::apply, the apply function, and whether apply
    initialises it before dispatching"""
    u = prog.find_method(vis, "apply")
    f = prog.functions.get(u)
    if f is None:
        return None, None, False
    mem = None
    for n in walk(f["body"]):
        if n.get("k") == "return" and n.get("e"):
            e = n["e"]
            while e.get("k") in ("ctor", "cast") and len(e.get("a", ())) == 1:
                e = e["a"][0]
            if e.get("k") == "ref" and e.get("d") == "local":
                lname = e["n"]
                for d in walk(f["body"]):
                    if d.get("k") == "decl":
                        for v in d.get("v", ()):
                            if v["n"] == lname and v.get("i"):
                                e = v["i"]
                while e.get("k") in ("ctor", "cast") \
                        and len(e.get("a", ())) == 1:
                    e = e["a"][0]
            if e.get("k") == "mem" and (e.get("o") or {}).get("k") == "this":
                mem = e["m"]
    pre = False
    if mem:
        # a visitor object that is built per query may initialise the result
        # in its constructor ("start true, handlers only falsify")
        for cu in prog.by_class.get(vis, ()):
            cf = prog.functions[cu]
            if cf.get("ctor"):
                for ini in cf.get("inits", ()):
                    if ini.get("m") == mem and ini.get("w"):
                        pre = True
        for c, fld in prog.fields(vis, inherited=False):
            if fld["n"] == mem and fld.get("i") is not None:
                pre = True
    if mem:
        for s in f["body"].get("s", []):
            if s.get("k") == "expr":
                e = s["e"]
                if e.get("k") in ("bin", "op") and e.get("op") == "=" \
                        and e["a"][0].get("k") == "mem" \
                        and e["a"][0].get("m") == mem:
                    pre = True
                if e.get("k") == "mcall" and e.get("n") == "accept":
                    break
    return mem, f, pre


def run(loader, R, tier):
    prog = loader()
    from selib import signpred
    R.rule("R34.0", "is_negative/is_zero/is_positive of Integer, Rational, "
                   "RealDouble are the comparisons of the value with 0 "
                   "(grounds the trusted atom table)")
    signpred.ground(prog, R, "R34.0")
    V = Visitors(prog)
    D = QDomain(prog)
    I = Interp(prog, D)
    R.explanation = (
        "R34.1: for each of the 11 query visitors the handler that the "
        "resolved dispatch table selects for every abstract number point "
        "(19 points: kind x value class) is interpreted (engine E3, "
        "predicate bodies included) and every definite answer is compared "
        "with the mathematical truth table of the property (NaN excluded; "
        "convention-dependent entries such as is_positive(+oo) not judged). "
        "R34.2: definite assignment of the tribool result member on every "
        "non-throwing path of every handler reachable from apply()'s static "
        "parameter type, for every visitor whose apply() returns a tribool "
        "member (test_visitors.cpp and matrices/is_*.cpp). R34.3: the "
        "derived queries (is_nonzero, is_infinite, is_transcendental) are "
        "not_tribool of the primary visitor. R34.5: every handler is "
        "interpreted under every assignment of true/false/indeterminate to "
        "its tribool sub-expressions (loops unrolled once and twice) and "
        "must be monotone in the information order. R34.6: the Assumptions "
        "constructor is interpreted for every abstract statement form and "
        "every recorded fact is compared with the set of values satisfying "
        "the statement. R34.7: the Add/Mul handlers of the assumption-"
        "driven visitors are judged against operand worlds (sign class x "
        "number class) with an attainable-sum/product table.")
    R.rule("R34.1", "definite answers for numbers agree with the truth "
                    "table")
    R.rule("R34.2", "tribool result definitely assigned in every reachable "
                    "handler")
    R.rule("R34.3", "derived queries delegate through not_tribool")
    R.assumptions += ["a range-for over the children of the visited node "
                      "runs at least once (n-ary nodes are non-empty in "
                      "canonical form)"]
    R.trusted += ["truth table of the 11 queries over number kinds (the "
                  "oracle, ~40 lines in rules/c34.py)",
                  "number-domain atoms (see C06)"]

    # ---------------------------------------------------------------- R34.1
    pts = all_points()
    nvis = 0
    joint = {}
    for vname, q in sorted(QUERY_VISITORS.items()):
        vis = NS + vname
        if vis not in V.table:
            raise AnalysisBroken("query visitor %s vanished" % vname)
        mem, applyf, pre = result_member(prog, V, vis)
        if not mem:
            raise AnalysisBroken("no result member for " + vname)
        nvis += 1
        for p in pts:
            h = V.handlers(vis).get(p.cls)
            f = prog.functions.get(h)
            if f is None:
                raise AnalysisBroken("no handler body %s(%s)" % (vname,
                                                                 p.kind))
            want = truth(q, p)
            key = "%s(%r)" % (q, p)
            outs = I.run(f, TOP, [p])
            answers = set()
            definite = True
            for o in outs:
                if o.kind == "throw":
                    answers.add("throw")
                    continue
                val = (o.env or {}).get("this." + mem, "unset")
                if not o.definite:
                    definite = False
                answers.add(val[1] if isinstance(val, tuple) else repr(val))
            if definite and len(answers) == 1 and next(iter(answers)) in (
                    "tritrue", "trifalse"):
                joint.setdefault(repr(p), {})[q] = (
                    next(iter(answers)) == "tritrue", prog.loc(f))
            R.instance("R34.1", key, nontrivial=want is not None, sample={
                "query": q, "number": repr(p), "answers": sorted(answers),
                "truth": want})
            if want is None or not definite or len(answers) != 1:
                if want is not None:
                    R.undecided_obligation("R34.1", key, "answers %s"
                                           % sorted(answers))
                continue
            a = answers.pop()
            if a not in ("tritrue", "trifalse"):
                continue        # indeterminate / throw: no definite claim
            if (a == "tritrue") != want:
                R.violation(
                    "R34.1", "%s:%r" % (q, p), prog.loc(f),
                    "is_%s answers %s for %r (handler %s) but the property "
                    "is %s for every such number" % (
                        q, a, p, short(f["qn"]) + "(" + short(
                            f["params"][0]["t"]) + ")", want))
    # R34.9: the definite answers that the visitors give for one number are
    # jointly satisfiable (no oracle: a value cannot be nonnegative without
    # being positive or zero, whatever one thinks NaN is)
    from selib import tri as _tri
    R.rule("R34.9", "the definite answers for one number are jointly "
                    "satisfiable")
    for pname, ans in sorted(joint.items()):
        qs = {q: v for q, (v, _w) in ans.items() if q in _tri.QUERIES}
        SIGN = ("zero", "positive", "negative", "nonnegative", "nonpositive")
        if pname.startswith(("RealDouble", "ComplexDouble")):
            # convention: a floating-point number is never "integer" /
            # "rational", whatever its value
            qs = {q: v for q, v in qs.items()
                  if q not in ("integer", "rational", "algebraic")}
        elif pname.startswith("Infty"):
            # convention: +oo / -oo carry a sign but are not real numbers
            qs = {q: v for q, v in qs.items() if q not in SIGN}
        elif pname.startswith("NaN"):
            qs = {q: v for q, v in qs.items() if q in SIGN}
        R.instance("R34.9", pname, sample={
            "number": pname, "answers": {q: v for q, v in sorted(qs.items())}})
        if len(qs) > 1 and not any(
                all(_tri.QUERIES[q](w) == v for q, v in qs.items())
                for w in _tri.WORLDS):
            # smallest contradictory subset for the message
            import itertools as _it
            core = None
            for n_ in (2, 3, 4):
                for sub in _it.combinations(sorted(qs), n_):
                    if not any(all(_tri.QUERIES[q](w) == qs[q] for q in sub)
                               for w in _tri.WORLDS):
                        core = sub
                        break
                if core:
                    break
            core = core or tuple(sorted(qs))
            R.violation(
                "R34.9", pname, ans[core[0]][1],
                "for the number %s the queries answer %s: no value has "
                "these properties together" % (pname, ", ".join(
                    "is_%s = %s" % (q, str(qs[q]).lower()) for q in core)))
    R.floor("query visitors", nvis, 11)
    R.floor("judged (query, number) entries",
            len(R.nontrivial.get("R34.1", ())), 150)

    # ---------------------------------------------------------------- R34.2
    ntri = 0
    nh = 0
    protocol = {}
    for vis in V.visitors():
        mem, applyf, pre = result_member(prog, V, vis)
        if not mem or applyf is None:
            continue
        rt = strip_type(applyf.get("ret", ""))
        is_tri = rt == "SymEngine::tribool"
        pcls = strip_type(applyf["params"][0]["t"]) if applyf.get(
            "params") else "SymEngine::Basic"
        MA = MustAssign(prog, mem)
        bad_here = []
        for h, Xs in sorted(V.by_handler(vis).items()):
            reach = [x for x in Xs if prog.derives(x, pcls)]
            if not reach:
                continue
            f = prog.functions.get(h)
            if f is None:
                continue
            bad = MA.unassigned_exits(f)
            key = "%s::bvisit(%s)" % (short(vis), short(
                f["params"][0]["t"]) if f.get("params") else "?")
            if is_tri:
                nh += 1
                R.instance("R34.2", key, sample={
                    "handler": key, "member": mem,
                    "reachable_classes": len(reach)})
            if bad and not pre:
                bad_here.append(key)
                if is_tri:
                    R.violation(
                        "R34.2", key, prog.loc(
                            f, bad[0] if bad[0] != "end" else None),
                        "%s (reached for %s) can finish without assigning "
                        "`%s` (exit %s): apply() then returns the answer "
                        "left by a previous child or an uninitialised value "
                        "as a definite one" % (
                            key, ", ".join(short(x) for x in reach[:3]), mem,
                            bad[0]))
        protocol[short(vis)] = {"member": mem, "tribool": is_tri,
                                "apply_preinitialises": pre,
                                "handlers_possibly_unassigned": bad_here}
        if is_tri:
            ntri += 1
    R.info["visitor_protocol"] = protocol
    R.floor("tribool visitors", ntri, 15)
    R.floor("reachable tribool handlers", nh, 150)

    # ---------------------------------------------------------------- R34.3
    for fname, vname in sorted(DERIVED.items()):
        fs = [f for f in prog.fn_by_qn(NS + fname)
              if strip_type(f["params"][0]["t"]) == "SymEngine::Basic"]
        if len(fs) != 1:
            raise AnalysisBroken("derived query %s not found" % fname)
        f = fs[0]
        R.instance("R34.3", fname)
        ok = False
        for n in walk(f["body"]):
            if n.get("k") == "return" and n.get("e"):
                e = n["e"]
                if e.get("k") == "call" and e.get("n") == "not_tribool" \
                        and e.get("a"):
                    a = e["a"][0]
                    if a.get("k") == "mcall" and a.get("n") == "apply" \
                            and strip_type((a.get("o") or {}).get("t", "")) \
                            == NS + vname:
                        ok = True
        if not ok:
            R.violation("R34.3", fname, prog.loc(f),
                        "%s is not `not_tribool(%s(...).apply(b))`: a query "
                        "and its negation could both give a definite "
                        "answer" % (fname, vname))

    # ---------------------------------------------------------------- R34.4
    # strict duality of helpers: a sign visitor that decides its predicate
    # for a sum/product from the signs of the parts may consult, within the
    # sign family, only its *strict* dual (Positive <-> Negative,
    # NonNegative <-> NonPositive).  With a non-strict helper the boundary
    # case (a part equal to zero) is counted on the wrong side:
    # is_positive(-x - y) under x <= 0, y <= 0 would be true.
    R.rule("R34.4", "sign visitors consult only their strict dual")
    DUAL = {"PositiveVisitor": "NegativeVisitor",
            "NegativeVisitor": "PositiveVisitor",
            "NonNegativeVisitor": "NonPositiveVisitor",
            "NonPositiveVisitor": "NonNegativeVisitor"}
    nhelp = 0
    for u, f in sorted(prog.functions.items(),
                       key=lambda kv: kv[1]["qn"]):
        cls = short(f.get("cls") or "")
        if cls not in DUAL or not f.get("body") or f.get("dependent"):
            continue
        for n in walk(f["body"]):
            used = None
            if n.get("k") == "decl":
                for v in n.get("v", ()):
                    t = short(strip_type(v.get("t", "")))
                    if t in DUAL:
                        used = (t, n.get("l"))
            elif n.get("k") == "ctor" and short(strip_type(
                    n.get("t", ""))) in DUAL and n.get("tmp"):
                used = (short(strip_type(n["t"])), n.get("l"))
            if not used:
                continue
            nhelp += 1
            key = "%s::%s:%s" % (cls, f["n"], used[0])
            R.instance("R34.4", key, sample={"visitor": cls,
                                             "helper": used[0]})
            if used[0] not in (DUAL[cls], cls):
                R.violation(
                    "R34.4", key, prog.loc(f, used[1]),
                    "%s::%s decides from the signs of the parts with the "
                    "helper %s; only its strict dual %s keeps the boundary "
                    "case (a part equal to zero) on the right side" % (
                        cls, f["n"], used[0], DUAL[cls]))
    R.floor("sign-family helpers inside sign visitors", nhelp, 1)

    # ---------------------------------------------------------------- R34.5
    # Kleene monotonicity: weakening one sub-answer to indeterminate must
    # not produce a different definite answer (selib/tri.py)
    from selib import tri
    R.rule("R34.5", "handlers are monotone in their three-valued "
                    "sub-answers (no definite answer from an "
                    "indeterminate premise)")
    nmono = 0
    for vis in V.visitors():
        mem, applyf, pre = result_member(prog, V, vis)
        if not mem or applyf is None or strip_type(
                applyf.get("ret", "")) != "SymEngine::tribool":
            continue
        own = short(vis)[:-len("Visitor")].lower() \
            if short(vis).endswith("Visitor") else None
        for h, Xs in sorted(V.by_handler(vis).items()):
            f = prog.functions.get(h)
            if f is None or not f.get("params"):
                continue
            key = "%s::bvisit(%s)" % (short(vis), short(f["params"][0]["t"]))
            for unroll in (1, 2):
                meta = {}
                lv = tri.leaves(prog, f, mem, limit=30000, unroll=unroll,
                                own=own, meta=meta)
                if lv is None:
                    R.undecided_obligation("R34.5", key, "more than 30000 "
                                           "sub-answer assignments")
                    break
                ntri = max((len([k for k in a if k.startswith("tri:")])
                            for a, _o in lv), default=0)
                rs = [tri.result_of(o, mem) for _a, o in lv]
                if not ntri or not any(r in ("T", "F") for r in rs):
                    break           # nothing three-valued is combined here
                if unroll == 1:
                    nmono += 1
                R.instance("R34.5", "%s/%d" % (key, unroll), sample={
                    "handler": key, "loop_iterations": unroll,
                    "sub_answers": ntri, "assignments": len(lv),
                    "undetermined": rs.count(None)})
                bad = tri.nonmonotone(lv, mem)
                for a, r, b, r2, k in bad[:1]:
                    names = {"T": "true", "F": "false", "I": "indeterminate"}
                    R.violation(
                        "R34.5", key, prog.loc(f),
                        "%s answers %s when the sub-query `%s` is %s but "
                        "the definite answer %s when that sub-query is "
                        "indeterminate (other sub-answers: %s): an "
                        "indeterminate premise cannot support a definite "
                        "answer that differs from the one given when the "
                        "premise is known" % (
                            key, names[r], k[4:], names[a[k]], names[r2],
                            ", ".join("%s=%s" % (x[4:] if x[3] == ":"
                                                 else x[5:], v)
                                      for x, v in sorted(b.items())
                                      if x != k)[:200]))
                if bad or not any(n.get("k") == "forr"
                                  for n in walk(f["body"])):
                    break
    R.floor("handlers combining three-valued sub-answers", nmono, 70)

    assumption_ingest(prog, R)
    world_soundness(prog, R, V)
    context_flags(prog, R, V)


# ------------------------------------------------------------------ R34.6
from fractions import Fraction as _Fr
from selib.absint import Domain as _Domain

_SQRT2 = ("irr", 1.4142135623730951)
_IMAG = ("nonreal",)
_INF = ("inf",)                 # +oo: a Number, but not a complex number
_XS = [_Fr(-2), _Fr(-1), _Fr(-1, 2), _Fr(0), _Fr(1, 2), _Fr(1), _Fr(2),
       _SQRT2, ("irr", -1.4142135623730951), _IMAG, _INF]
_NS = [_Fr(-1), _Fr(-1, 2), _Fr(0), _Fr(1, 2), _Fr(1), _SQRT2, _IMAG, _INF]


def _real(v):
    return v != _IMAG and v != _INF


def _num(v):
    return float(v[1]) if isinstance(v, tuple) else float(v)


_FACTS = {
    "zero_": lambda x: _real(x) and _num(x) == 0,
    "nonzero_": lambda x: not (_real(x) and _num(x) == 0),
    "positive_": lambda x: _real(x) and _num(x) > 0,
    "negative_": lambda x: _real(x) and _num(x) < 0,
    "nonnegative_": lambda x: _real(x) and _num(x) >= 0,
    "nonpositive_": lambda x: _real(x) and _num(x) <= 0,
    "complex_symbols_": lambda x: x != _INF,
    "real_symbols_": _real,
    "rational_symbols_": lambda x: isinstance(x, _Fr),
    "integer_symbols_": lambda x: isinstance(x, _Fr) and x.denominator == 1,
}
_SETS = {"Complexes": lambda x: x != _INF, "Reals": _real,
         "Rationals": _FACTS["rational_symbols_"],
         "Integers": _FACTS["integer_symbols_"]}


def _holds(typ, a1, a2):
    if typ in ("LessThan", "StrictLessThan"):
        if _IMAG in (a1, a2):
            return False
        # +oo is above every real number and equal to itself
        if _INF in (a1, a2):
            return False        # symbols range over numbers, not oo
        v1, v2 = _num(a1), _num(a2)
        return v1 <= v2 if typ == "LessThan" else v1 < v2
    same = (a1 == a2) if (isinstance(a1, tuple) or isinstance(a2, tuple)) \
        else a1 == a2
    return same if typ == "Equality" else not same


class StmtDomain(_Domain):
    """one abstract statement: its class, which argument is the symbol and
    the value of the number (or the set of a Contains)"""

    def __init__(self, typ, sym=None, n=None, setname=None):
        self.typ, self.sym, self.n, self.setname = typ, sym, n, setname

    def value(self, I, e, env):
        if e.get("k") == "mcall" and e.get("n") in (
                "get_arg1", "get_arg2", "get_expr", "get_set"):
            o = I.eval(e.get("o"), env)
            if isinstance(o, tuple) and o and o[0] == "iter":
                return {"get_arg1": ("arg", 1), "get_arg2": ("arg", 2),
                        "get_expr": ("expr",), "get_set": ("set",)}[e["n"]]
        return TOP

    def atom(self, I, e, env):
        k = e.get("k")
        if k == "call" and e.get("n") in ("is_a", "is_a_Number") \
                and e.get("a"):
            v = I.eval(e["a"][0], env)
            T = short(strip_type(e["ta"][0])) if e.get("ta") else None
            if not isinstance(v, tuple) or not v:
                return None
            if e["n"] == "is_a_Number":
                return v[0] == "arg" and v[1] != self.sym
            if v[0] == "iter":
                return T == self.typ
            if v[0] == "arg":
                if T == "Symbol":
                    return v[1] == self.sym
                return False if v[1] == self.sym else None
            if v[0] == "expr":
                return T == "Symbol"
            if v[0] == "set":
                return T == self.setname
        if k == "mcall" and e.get("n") in ("is_zero", "is_positive",
                                           "is_negative", "is_complex"):
            v = I.eval(e.get("o"), env)
            if isinstance(v, tuple) and v[:1] == ("arg",) \
                    and v[1] != self.sym and self.n is not None:
                if self.n == _IMAG:
                    return e["n"] == "is_complex"
                if self.n == _INF:
                    return e["n"] == "is_positive"
                x = _num(self.n)
                return {"is_zero": x == 0, "is_positive": x > 0,
                        "is_negative": x < 0, "is_complex": False}[e["n"]]
        return None

    def effect(self, I, e, env):
        w = None
        if e.get("k") == "mcall" and e.get("n") == "set_map" \
                and len(e.get("a", ())) == 3 \
                and e["a"][0].get("k") == "mem":
            w = (e["a"][0]["m"], I.eval(e["a"][1], env),
                 I.cond(e["a"][2], env), e.get("l"))
        elif e.get("k") == "mcall" and e.get("n") == "insert" \
                and (e.get("o") or {}).get("k") == "mem" \
                and ((e["o"].get("o") or {}).get("k") == "this") \
                and e.get("a"):
            w = (e["o"]["m"], I.eval(e["a"][0], env), True, e.get("l"))
        if w is None:
            return None
        return {"__writes": env.get("__writes", ()) + (w,)}


def assumption_ingest(prog, R):
    R.rule("R34.6", "the Assumptions constructor records only facts that "
                    "every value satisfying the statement has")
    fs = prog.fn_by_qn("SymEngine::Assumptions::Assumptions")
    fs = [f for f in fs if f.get("params") and "set" in f["params"][0]["t"]]
    if len(fs) != 1:
        raise AnalysisBroken("Assumptions(const set_basic&) not found")
    f = fs[0]
    forms = []
    for typ in ("LessThan", "StrictLessThan", "Equality", "Unequality"):
        for sym in (1, 2):
            for n in _NS:
                if n in (_IMAG, _INF) and typ in ("LessThan",
                                                  "StrictLessThan"):
                    continue    # order statements: finite real bounds only
                                # (symbols range over numbers; with x = oo
                                # admitted every bound would be "unsound")
                forms.append(StmtDomain(typ, sym, n))
    for setname in _SETS:
        forms.append(StmtDomain("Contains", None, None, setname))
    nwrites = 0
    for D in forms:
        I = Interp(prog, D)
        I.unroll = 1
        outs = I.run(f, TOP, [TOP])
        if D.typ == "Contains":
            S = [x for x in _XS if _SETS[D.setname](x)]
            desc = "Contains(x, %s)" % D.setname
        else:
            S = [x for x in _XS if _holds(D.typ, *(
                (x, D.n) if D.sym == 1 else (D.n, x)))]
            nt = "I" if D.n == _IMAG else ("oo" if D.n == _INF else (
                "sqrt(2)" if D.n == _SQRT2 else str(D.n)))
            desc = "%s(%s, %s)" % (D.typ, *(("x", nt) if D.sym == 1
                                            else (nt, "x")))
        seen = set()
        for o in outs:
            if o.kind == "throw":
                continue
            for mem, who, val, line in (o.env or {}).get("__writes", ()):
                if (mem, val, line) in seen:
                    continue
                seen.add((mem, val, line))
                nwrites += 1
                key = "%s:%s=%s" % (desc, mem, val)
                R.instance("R34.6", key, nontrivial=bool(S), sample={
                    "statement": desc, "fact": mem, "value": val,
                    "definite_path": o.definite})
                if mem not in _FACTS or val is None or not S:
                    if mem not in _FACTS:
                        R.undecided_obligation("R34.6", key,
                                               "unknown fact table " + mem)
                    continue
                if not o.definite:
                    continue
                ok_who = who == ("expr",) or who == ("arg", D.sym)
                bad = [x for x in S if _FACTS[mem](x) != val]
                if not ok_who:
                    R.violation(
                        "R34.6", "%s:%s" % (D.typ, mem),
                        prog.loc(f, line),
                        "for the statement %s the constructor records "
                        "%s for the number, not for the symbol" % (desc,
                                                                   mem))
                elif bad:
                    R.violation(
                        "R34.6", "%s:%s" % (D.typ, mem),
                        prog.loc(f, line),
                        "for the statement %s the constructor records "
                        "%s = %s for x, but x = %s satisfies the statement "
                        "and does not have that property: every later "
                        "query under this assumption can be definitely "
                        "wrong" % (desc, mem.rstrip("_"), val,
                                   "I" if bad[0] == _IMAG else (
                                       "oo" if bad[0] == _INF else (
                                           bad[0][1] if isinstance(bad[0],
                                                                   tuple)
                                           else bad[0]))))
    R.floor("facts recorded over the abstract statement forms", nwrites, 150)


# ------------------------------------------------------------------ R34.8
# context members of a query visitor: state that a handler changes for the
# duration of its children (e.g. "variables are not allowed below this node")
CONTEXT = {"SymEngine::PolynomialVisitor": "variables_allowed_"}


def context_flags(prog, R, V):
    """R34.8: a handler that changes a context flag leaves it, on every exit,
    equal to the value it had on entry (restored from a copy, or set to a
    constant under a test that established that constant on entry).  The
    handler is interpreted for both entry values with every other condition
    free (loops unrolled once and twice)."""
    from selib import tri
    R.rule("R34.8", "a handler leaves the visitor's context flag as it "
                    "found it, on every exit")
    nctx = 0
    for vis, mem in sorted(CONTEXT.items()):
        if vis not in prog.classes or not any(
                fd["n"] == mem for _c, fd in prog.fields(vis)):
            raise AnalysisBroken("%s::%s vanished" % (vis, mem))
        for fu in sorted(prog.by_class.get(vis, ())):
            f = prog.functions[fu]
            if not f.get("body") or f.get("ctor") or f["n"] == "apply":
                continue
            writes = [n for n in walk(f["body"])
                      if n.get("k") in ("bin", "op") and n.get("op") == "="
                      and n.get("a") and n["a"][0].get("k") == "mem"
                      and n["a"][0].get("m") == mem]
            if not writes:
                continue
            nctx += 1
            key = "%s::%s(%s)" % (short(vis), f["n"], short(
                f["params"][0]["t"]) if f.get("params") else "")
            R.instance("R34.8", key, sample={"handler": key, "flag": mem,
                                             "writes": len(writes)})
            bad = None
            for unroll in (1, 2):
                lv = tri.leaves(prog, f, "__none__", limit=20000,
                                unroll=unroll)
                if lv is None:
                    R.undecided_obligation("R34.8", key, "explosion")
                    break
                for a, outs in lv:
                    entry = a.get("bool:" + mem)
                    for o in outs:
                        if o.kind == "throw":
                            continue
                        fin = (o.env or {}).get("this." + mem, "unchanged")
                        if fin == "unchanged":
                            continue
                        if not isinstance(fin, bool):
                            continue        # not a constant: no claim
                        if entry is None or fin != entry:
                            bad = (o.line, fin, entry)
                            break
                    if bad:
                        break
                if bad or not any(n.get("k") == "forr"
                                  for n in walk(f["body"])):
                    break
            if bad:
                R.violation(
                    "R34.8", key, prog.loc(f, bad[0]),
                    "%s can finish with %s = %s %s: a later sibling of the "
                    "node is then judged in the wrong context (a variable "
                    "inside a function argument or an exponent is accepted "
                    "as polynomial)" % (
                        key, mem, str(bad[1]).lower(),
                        "although it was %s on entry" % str(bad[2]).lower()
                        if bad[2] is not None else
                        "without having looked at the value it had on "
                        "entry"))
    R.floor("handlers writing a context flag", nctx, 2)


# ------------------------------------------------------------------ R34.7
def _minus_one(w):
    """world of exp - 1 given the world of an integer exponent"""
    if w is None or w[1] != "int":
        return None
    if len(w) == 3:
        return ("zero", "int")
    if w[0] == "pos":               # an integer >= 2
        return ("pos", "int")
    return ("neg", "int")           # zero or negative


def pow_objects(meta, var=None):
    """objects a power handler asks about: base (slot 0), exponent (slot 1),
    exponent - 1 (derived), the Mul's numeric coefficient (slot 2)"""
    objs = {}
    for o, _q in meta.values():
        b = o.split(" #")[0]
        if b == "base" or (var and b == var + ".first"):
            objs[o] = 0
        elif b == "exp" or (var and b == var + ".second"):
            objs[o] = 1
        elif b.startswith("sub(exp,") and "integer<int>(1" in b:
            objs[o] = ("derived", 1, _minus_one)
        elif b.startswith("x.get_coef"):
            objs[o] = 2
    return objs


def world_soundness(prog, R, V):
    """the Add/Mul combination rules against abstract values: each child is
    given a world (sign class x number class), the sub-answers are every
    sound answer for that world, and a definite answer of the handler must
    hold for every attainable world of the sum/product."""
    from selib import tri
    R.rule("R34.7", "definite answers of the Add/Mul combination rules hold "
                    "for every attainable value of the operands")
    R.exception("RationalVisitor", "R34.7: its Symbol handler consults no "
                "assumptions, so definite sub-answers come only from "
                "numbers and three named constants; the abstract worlds of "
                "the oracle are not realisable by operands")
    W = lambda w: "%s %s" % ({"int": "integer", "rat": "rational",
                              "alg": "algebraic irrational",
                              "transc": "transcendental",
                              "inf": ""}[w[1]],
                             {"neg": "negative", "pos": "positive",
                              "zero": "zero", "nonreal": "non-real",
                              "inf": "infinite"}[w[0]])
    ndec = 0
    for vis in V.visitors():
        mem, applyf, pre = result_member(prog, V, vis)
        if not mem or applyf is None or strip_type(
                applyf.get("ret", "")) != "SymEngine::tribool":
            continue
        own = short(vis)[:-len("Visitor")].lower() \
            if short(vis).endswith("Visitor") else None
        if own not in tri.QUERIES:
            continue
        hs = V.handlers(vis).get("SymEngine::Symbol")
        sf = prog.functions.get(hs) if hs else None
        if sf is None or not any(
                n.get("k") == "mem" and n.get("m") == "assumptions_"
                for n in walk(sf["body"])):
            continue            # children cannot be arbitrary (see above)
        for cls in ("Add", "Mul", "Pow"):
            h = V.handlers(vis).get("SymEngine::" + cls)
            f = prog.functions.get(h) if h else None
            if f is None or not f.get("params") or strip_type(
                    f["params"][0]["t"]) != "SymEngine::" + cls:
                continue
            loops = [n for n in walk(f["body"]) if n.get("k") == "forr"]
            if cls == "Pow":
                loops = [{"v": {"n": None}, "r": {"k": "lit", "v": "-"}}]
            if len(loops) != 1 or (cls != "Pow" and not (
                    loops[0].get("v") or {}).get("n")):
                continue
            var = loops[0]["v"]["n"]
            rng = show(loops[0]["r"]) if cls != "Pow" else "-"
            key = "%s::bvisit(%s)" % (short(vis), cls)
            op = tri.world_sum if cls == "Add" else tri.world_prod
            meta = {}
            if "get_args" in rng:
                n = 2
                lv = tri.leaves(prog, f, mem, limit=30000, unroll=n,
                                own=own, meta=meta)
                objs = {"%s #%d" % (var, i): i for i in range(n)}
                extra = None
                what = "two arguments"
            elif cls == "Pow":
                lv = tri.leaves(prog, f, mem, limit=30000, unroll=0,
                                own=own, meta=meta)
                objs = pow_objects(meta)
                extra = None

                def result(bools, wmap):
                    if bools or 0 not in wmap:
                        return None
                    ew = wmap.get(1, tri.ONE)
                    if ew[1] != "int":
                        return None
                    return [("pos", "int", "one"), wmap[0], ew], \
                        tri.world_pow(wmap[0], ew)
                what = "base**exp"
            elif cls == "Mul" and "get_dict" in rng:
                # coefficient * base**exp for one dictionary entry.  If the
                # handler asks whether exp - 1 is zero the exponent is fixed
                # to one; otherwise it ranges over the integer worlds.
                lv = tri.leaves(prog, f, mem, limit=30000, unroll=1,
                                own=own, meta=meta)
                has_one = False
                objs = pow_objects(meta, var)
                extra = None
                NUMW = {(s_, k_) for s_ in ("pos", "neg")
                        for k_ in ("int", "rat")} | {("nonreal", "alg")}

                def result(bools, wmap, has_one=has_one):
                    # the numeric coefficient: a sub-answer about it, the
                    # handler's own test of Number::is_complex() (true only
                    # for Complex numbers and zoo; false also for +-oo), or
                    # nothing at all (then any number, including oo)
                    coefs = [wmap[2]] if 2 in wmap else None
                    for k, v in bools.items():
                        if "get_coef()" in k and "is_complex()" in k:
                            coefs = [("nonreal", "alg")] if v else [
                                ("pos", "int"), ("inf", "inf")]
                        elif "eq(" in k and "one" in k:
                            # `exp == 1` tested structurally
                            if v and not has_one:
                                return None
                        else:
                            return None
                    if coefs is None:
                        coefs = [("pos", "int"), ("nonreal", "alg"),
                                 ("inf", "inf")]
                    if 0 not in wmap:
                        return None
                    base = wmap[0]
                    # the exponent: a slot if the handler asked about it,
                    # otherwise one (the factor is the base itself)
                    ew = wmap.get(1, tri.ONE)
                    if ew[1] != "int":
                        return None
                    factor = tri.world_pow(base, ew)
                    alts = []
                    for coef in coefs:
                        if coef not in NUMW and coef != ("inf", "inf"):
                            continue
                        res = set().union(*[tri.world_prod(coef, w)
                                            for w in factor]) \
                            if factor else set()
                        alts.append(([coef, base, ew], res))
                    return alts or None
                what = "coefficient * base**exp"
            elif cls == "Add" and rng in ("dict", "x.get_dict()"):
                # coef + c*key with the signs of the numbers coef and c
                # taken from the handler's own boolean atoms
                lv = tri.leaves(prog, f, mem, limit=30000, unroll=1,
                                own=own, meta=meta)
                objs = {"%s.first #0" % var: 0}
                extra = None

                def result(bools, wmap, var=var):
                    ws = [wmap[0]]
                    sg = {}
                    for k, v in bools.items():
                        t = k[5:]
                        who = "coef" if t.startswith("coef") else (
                            "c" if t.startswith(var + ".second") else None)
                        pred = "pos" if "is_positive()" in t else (
                            "neg" if "is_negative()" in t else None)
                        if who is None or pred is None:
                            return None
                        sg.setdefault(who, {})[pred] = v
                    out = None
                    # the constant term is a Number: zero, positive,
                    # negative or not real at all (is_positive() and
                    # is_negative() are both false for zero *and* for a
                    # Complex number)
                    for cw in (("zero", "int"), ("pos", "int"),
                               ("neg", "int"), ("nonreal", "alg")):
                        d = sg.get("coef", {})
                        if any(d.get(p_, cw[0] == p_) != (cw[0] == p_)
                               for p_ in ("pos", "neg")):
                            continue
                        for c in (("pos", "int"), ("neg", "int")):
                            d = sg.get("c", {})
                            if any(d.get(p_, c[0] == p_) != (c[0] == p_)
                                   for p_ in ("pos", "neg")):
                                continue
                            term = tri.world_prod(c, ws[0])
                            res = set().union(*[tri.world_sum(cw, t)
                                                for t in term]) \
                                if term else set()
                            if out is None:
                                out = []
                            out.append(([cw, c, ws[0]], res))
                    return out
                what = "coef + c*key"
            else:
                continue
            if lv is None:
                R.undecided_obligation("R34.7", key, "assignment explosion")
                continue
            ndec += 1
            R.instance("R34.7", key, sample={
                "handler": key, "shape": what, "assignments": len(lv)})
            seen = set()
            sw = {1: tri.WORLDS + [tri.ONE]} \
                if what in ("coefficient * base**exp", "base**exp") else None
            res_cb = result if what in ("coef + c*key", "base**exp",
                                        "coefficient * base**exp") else None
            for a, r, ws, bad in tri.unsound_worlds(lv, meta, mem, own, op,
                                                    objs, extra, res_cb,
                                                    sw):
                def cause(ws):
                    # the feature of the operands that makes the answer
                    # wrong (one finding per cause, not per world tuple)
                    if cls == "Add":
                        if len(ws) == 3 and ws[0][0] == "nonreal":
                            return "non-real constant term"
                        return "+".join(w[0] for w in ws)
                    c, b = ws[0][0], ws[1][0]
                    e = "one" if len(ws) < 3 or len(ws[2]) == 3 else ws[2][0]
                    if c == "inf":
                        return "infinite coefficient"
                    if b == "zero" and e == "neg":
                        return "zero base with a negative exponent"
                    if c == "nonreal" and b == "zero":
                        return "nonreal*zero"
                    if c == "nonreal" and b == "nonreal":
                        return "nonreal*nonreal"
                    if e == "neg":
                        return "negative exponent"
                    return "*".join(w[0] for w in ws[:2]) + (
                        "**" + e if len(ws) > 2 else "")
                sig = "%s:%s" % ("true" if r == "T" else "false", cause(ws))
                if sig in seen:
                    continue
                seen.add(sig)
                subs = ", ".join("%s=%s" % (k[4:], v) for k, v in sorted(
                    a.items()) if k.startswith("tri:"))[:220]
                R.violation(
                    "R34.7", key + ":" + sig, prog.loc(f),
                    "%s answers %s for %s with operands that are %s "
                    "(sub-answers %s), but such operands can give a result "
                    "that is %s" % (
                        key, "true" if r == "T" else "false", what,
                        " and ".join(W(w).strip() for w in ws), subs,
                        W(bad).strip()))
    R.floor("Add/Mul combination handlers judged against worlds", ndec, 7)


MANIFEST = dict(
    technique="finite-domain abstract interpretation (engine E3 with bounded "
              "loop unrolling) of the query handlers against truth tables: "
              "number points, Kleene monotonicity in three-valued "
              "sub-answers, operand worlds (sign class x number class) for "
              "the Add/Mul combination rules, abstract statement forms for "
              "the Assumptions constructor; definite-assignment analysis "
              "over the resolved (visitor, class) dispatch table",
    text="Decides (1) exhaustively over 19 abstract number points x 11 "
         "query visitors that every definite answer for a number agrees "
         "with the mathematical truth table; (2) that every handler "
         "reachable in every tribool visitor assigns the result on all "
         "non-throwing paths; (3) that is_nonzero/is_infinite/"
         "is_transcendental are not_tribool of the primary visitor and sign "
         "visitors consult only their strict dual; (4) for every handler "
         "that combines three-valued sub-answers (loops unrolled 1 and 2 "
         "times) that weakening a sub-answer to indeterminate never yields "
         "a different definite answer; (5) for the Add/Mul handlers of the "
         "assumption-driven visitors that every definite answer holds for "
         "every attainable sum/product of operand worlds consistent with "
         "the sub-answers (two arguments; coefficient * base**1 for the "
         "dictionary form of Mul); (6) for every statement form "
         "(LessThan/StrictLessThan/Equality/Unequality x orientation x "
         "seven representative numbers, Contains x four sets) that the "
         "Assumptions constructor records only facts every satisfying value "
         "has. Does not decide Pow with a general exponent, the "
         "PositiveVisitor dictionary rule beyond monotonicity and strict "
         "duality, sums/products of more than two operands against worlds, "
         "nor the function handlers' mathematics (e.g. Lindemann-"
         "Weierstrass premises beyond monotonicity).",
    note="Trusted: the truth tables (number points, query/world table, "
         "attainable sum/product worlds, statement semantics), ~200 lines "
         "in rules/c34.py and selib/tri.py.",
    ref="§2 C34",
)
