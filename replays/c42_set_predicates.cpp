#include <symengine/cwrapper.h>
#include <cstdio>
#include <cstring>
#include <unistd.h>
#include <sys/wait.h>
#include <functional>
#include <exception>
#include <vector>
#define B(x) basic x; basic_new_stack(x)
int main()
{
    B(x); B(y); B(i1); B(i2); B(i3); B(i5); B(i6);
    symbol_set(x, "x"); symbol_set(y,"y"); integer_set_si(i1, 1); integer_set_si(i2, 2); integer_set_si(i3, 3); integer_set_si(i5,5); integer_set_si(i6,6);
    std::vector<basic_struct*> sets;
    auto mk=[&](){ basic_struct* b=basic_new_heap(); sets.push_back(b); return b;};
    CSetBasic *s1 = setbasic_new(); setbasic_insert(s1, i1); auto fs1=mk(); basic_set_finiteset(fs1, s1);
    CSetBasic *s2 = setbasic_new(); setbasic_insert(s2, x); auto fsx=mk(); basic_set_finiteset(fsx, s2);
    CSetBasic *s3 = setbasic_new(); setbasic_insert(s3, x); setbasic_insert(s3,i2); auto fsx2=mk(); basic_set_finiteset(fsx2, s3);
    auto iv23=mk(); basic_set_interval(iv23, i2, i3, 0, 0);
    auto iv56=mk(); basic_set_interval(iv56, i5, i6, 0, 0);
    auto un=mk(); basic_set_union(un, iv23, iv56);
    auto un2=mk(); basic_set_union(un2, fsx, iv23);
    auto in1=mk(); basic_set_intersection(in1, fsx, iv23);
    auto cm=mk(); basic_set_complement(cm, iv23, fsx);
    auto cm2=mk(); basic_set_complement(cm2, fsx, iv23);
    auto re=mk(); basic_set_reals(re);
    auto in2=basic_new_heap(); printf("rc of basic_set_intersection({x}, [2,3]U[5,6]) = %d\n", (int)basic_set_intersection(in2, fsx, un));
    for (auto s: sets) { printf("%d ", (int)basic_get_type(s)); fflush(stdout); char*c=basic_str(s); printf("set: %s\n", c?c:"(null)"); }
    int (*fn[4])(const basic,const basic)={basic_set_is_subset,basic_set_is_proper_subset,basic_set_is_superset,basic_set_is_proper_superset};
    const char*nm[4]={"is_subset","is_proper_subset","is_superset","is_proper_superset"};
    for(int k=0;k<4;k++) for (auto a: sets) for (auto b: sets) {
        fflush(stdout);
        pid_t p=fork();
        if(p==0){
            try { fn[k](a,b); }
            catch(std::exception&e){ char*ca=basic_str(a),*cb=basic_str(b); printf("%s(%s, %s): ESCAPED %s\n",nm[k],ca,cb,e.what()); }
            fflush(stdout); _exit(0);
        }
        int st; waitpid(p,&st,0);
        if (WIFSIGNALED(st)) { char*ca=basic_str(a),*cb=basic_str(b); printf("%s(%s, %s): signal %d\n",nm[k],ca,cb,WTERMSIG(st)); }
    }
}
